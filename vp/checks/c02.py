"""C02 - all public conversion routes agree with the database's float conversion and keep category
and quantity type (DESIGN.md section 4, C02)."""
import math

from .. import probe
from ..models import conv
from ..workloads import table, values

SHARDS = {"quick": 4, "thorough": 16}
WATCHDOG_S = {"quick": 900, "thorough": 7200}
FLOORS = (20000, 500)
K = 8.0


class Owner:
    pass


def _floats(got):
    import numpy as np

    if isinstance(got, (list, tuple, np.ndarray)):
        out = []
        for g in got:
            if isinstance(g, (list, tuple, np.ndarray)):
                out.extend(float(x) for x in g)
            else:
                out.append(float(g))
        return out
    return [float(got)]


class Routes:
    def __init__(self, ctx, db, aff):
        self.ctx, self.db, self.aff = ctx, db, aff
        self.seen_routes = set()
        self.legacy = {}  # current symbol -> [legacy spellings]
        try:
            from .c16 import derive_spellings, substitutions

            for leg, cur in sorted(derive_spellings(sorted(aff), substitutions()).items()):
                self.legacy.setdefault(cur, []).append(leg)
        except Exception:
            self.legacy = {}

    def bad(self, route, clause, case, detail):
        self.ctx.violation("route:%s:%s" % (route, clause), dict(detail, case=case, route=route), replay=case)

    def cmp(self, route, got, ref, case, au, av, xs, kind=None):
        """got must equal ref element by element within the running error scale; kind: expected container type."""
        self.ctx.ev()
        self.seen_routes.add(route)
        try:
            g = _floats(got)
        except Exception as e:
            self.bad(route, "not-numeric", case, {"got": repr(got), "error": repr(e)})
            return
        if kind is not None and type(got) is not kind:
            self.bad(route, "container-type", case, {"got": type(got).__name__, "want": kind.__name__})
        if len(g) != len(ref):
            self.bad(route, "length", case, {"got": repr(got)[:200], "ref": ref})
            return
        for a, b, x in zip(g, ref, xs):
            tol = conv.tol_in(av, conv.base_err(au, x, av), b, K) if au is not None else 4 * math.ulp(max(abs(b), 1e-300))
            if not (a == b or abs(a - b) <= tol):
                self.bad(route, "value", case, {"got": a, "ref": b, "x": x, "tol": tol})
                return

    def meta(self, route, obj, c, qt, unit, case):
        self.ctx.ev()
        try:
            got = (obj.GetCategory(), obj.GetQuantityType(), obj.GetUnit())
        except Exception as e:
            got = repr(e)
        if got != (c, qt, unit):
            self.bad(route, "category/type/unit", case, {"got": got, "want": (c, qt, unit)})

    def guard(self, route, case, fn):
        try:
            fn()
        except Exception as e:  # an exception where a value is due is a disagreement
            self.ctx.ev()
            self.bad(route, "raised", case, {"error": "%s: %s" % (type(e).__name__, str(e)[:200])})

    def pair(self, c, qt, u, v, xs, lengths):
        import numpy as np
        from barril.units import Array, ChangeScalars, FixedArray, FractionScalar, ObtainQuantity, Scalar
        from barril.units.unit_system_manager import UnitSystemManager

        db, aff = self.db, self.aff
        au, av = aff[u], aff[v]
        case = {"category": c, "qt": qt, "u": u, "v": v, "xs": xs}
        ref = []
        for x in xs:
            try:
                ref.append(db.Convert(qt, u, v, float(x)))
            except Exception as e:
                self.bad("reference", "raised", case, {"error": repr(e)})
                return
        x0, r0 = xs[0], ref[0]
        G = self.guard

        def scalar_routes():
            s = Scalar(c, x0, u)
            self.cmp("Scalar.GetValue", s.GetValue(v), [r0], case, au, av, [x0])
            self.cmp("Scalar.GetValue(own unit)", s.GetValue(u), [float(x0)], case, None, None, [x0])
            cp = s.CreateCopy(unit=v)
            self.cmp("Scalar.CreateCopy(unit)", cp.value, [r0], case, au, av, [x0])
            self.meta("Scalar.CreateCopy(unit)", cp, c, qt, v, case)
            # ... also when the category is named along with the unit (its own one: nothing else changes)
            cpc = s.CreateCopy(unit=v, category=c)
            self.cmp("Scalar.CreateCopy(unit, category)", cpc.value, [r0], case, au, av, [x0])
            self.meta("Scalar.CreateCopy(unit, category)", cpc, c, qt, v, case)
            acc = Array(c, list(xs), u).CreateCopy(unit=v, category=c)
            self.cmp("Array.CreateCopy(unit, category)", acc.GetValues(), ref, case, au, av, xs, list)
            self.meta("Array.CreateCopy(unit, category)", acc, c, qt, v, case)
            o = Owner()
            o.a = s
            ChangeScalars(o, a=(None, v))
            self.cmp("ChangeScalars", o.a.value, [r0], case, au, av, [x0])
            self.meta("ChangeScalars", o.a, c, qt, v, case)
            # several scalars in one call; requests that change nothing (the unit it already has, (None, None)) among them,
            # before and after the real one: every scalar named is re-expressed as asked
            for order in (("same", "none", "real"), ("real", "same", "none"), ("none", "real", "same")):
                o = Owner()
                o.same, o.none, o.real = Scalar(c, x0, u), Scalar(c, x0, u), Scalar(c, x0, u)
                req = {"same": (None, u), "none": (None, None), "real": (None, v)}
                ChangeScalars(o, **{k: req[k] for k in order})
                self.cmp("ChangeScalars(several, %s)" % "/".join(order), o.real.value, [r0], case, au, av, [x0])
                self.meta("ChangeScalars(several, %s)" % "/".join(order), o.real, c, qt, v, case)
                self.cmp("ChangeScalars(several, %s) untouched ones" % "/".join(order), [o.same.value, o.none.value], [float(x0), float(x0)], case, None, None, [x0, x0])
            o = Owner()
            o.a, o.b = Scalar(c, x0, u), Scalar(c, x0, v)
            ChangeScalars(o, a=(7.0, None), b=(float(x0), u))  # value only; value and unit (the value is given in that unit)
            self.cmp("ChangeScalars(value only)", [o.a.value, o.b.value], [7.0, float(x0)], case, None, None, [7.0, x0])
            self.meta("ChangeScalars(value only)", o.a, c, qt, u, case)
            self.meta("ChangeScalars(value and unit)", o.b, c, qt, u, case)
            # an object that came out of a copy with a *new amount* (in another unit) is re-expressed like any other: a
            # copy chain v -> (x0, u) -> v tells x0 in v, not the amount the first object of the chain held
            other = Scalar(c, 12345.678, v)
            chain = other.CreateCopy(float(x0), u).CreateCopy(unit=v)
            self.cmp("Scalar.CreateCopy(value,unit).CreateCopy(unit back)", chain.value, [r0], case, au, av, [x0])
            self.meta("Scalar.CreateCopy(value,unit).CreateCopy(unit back)", chain, c, qt, v, case)
            o = Owner()
            o.a = Scalar(c, 12345.678, v)
            ChangeScalars(o, a=(float(x0), u))
            ChangeScalars(o, a=(None, v))
            self.cmp("ChangeScalars(value,unit) then ChangeScalars(unit back)", o.a.value, [r0], case, au, av, [x0])
            achain = Array(c, [12345.678] * len(xs), v).CreateCopy(list(xs), u).CreateCopy(unit=v)
            self.cmp("Array.CreateCopy(values,unit).CreateCopy(unit back)", achain.GetValues(), ref, case, au, av, xs, list)
            q = ObtainQuantity(u, c)
            self.cmp("Quantity.ConvertScalarValue", q.ConvertScalarValue(float(x0), v), [r0], case, au, av, [x0])
            self.cmp("Quantity.Convert(float)", q.Convert(float(x0), v), [r0], case, au, av, [x0])
            self.cmp("Quantity.Convert(list)", q.Convert(list(xs), v), ref, case, au, av, xs, list)
            self.cmp("Quantity.Convert(tuple)", q.Convert(tuple(xs), v), ref, case, au, av, xs, tuple)
            self.cmp("Quantity.Convert(ndarray)", q.Convert(np.array(xs, dtype=float), v), ref, case, au, av, xs, np.ndarray)

        def db_routes():
            # the 'Unknown' quantity type accepts any unit label and returns the value as it is (by design);
            # asking it about this very unit pair first must not change what the pair means for its real type
            self.seen_routes.add("UnitDatabase.Convert('Unknown',u,v,x) first")
            try:
                if "Unknown" not in db.quantity_types:
                    raise LookupError
                uk = db.Convert("Unknown", u, v, float(x0))
                if uk != float(x0):
                    self.bad("UnitDatabase.Convert('Unknown',u,v,x)", "value-not-returned-unchanged", case, {"got": uk, "x": x0})
            except LookupError:
                pass  # a database without the 'Unknown' quantity type (FillSimple)
            except Exception as e:
                self.bad("UnitDatabase.Convert('Unknown',u,v,x)", "raised:%s" % type(e).__name__, case, {"error": str(e)[:160]})
            self.cmp("UnitDatabase.Convert(category name)", db.Convert(c, u, v, float(x0)), [r0], case, au, av, [x0])
            self.cmp("UnitDatabase.Convert(list)", db.Convert(qt, u, v, list(xs)), ref, case, au, av, xs, list)
            self.cmp("UnitDatabase.Convert(tuple)", db.Convert(qt, u, v, tuple(xs)), ref, case, au, av, xs, tuple)
            self.cmp("UnitDatabase.Convert(ndarray f8)", db.Convert(qt, u, v, np.array(xs, dtype=float)), ref, case, au, av, xs, np.ndarray)
            self.cmp("UnitDatabase.Convert([(u,1)])", db.Convert(qt, [(u, 1)], [(v, 1)], float(x0)), [r0], case, au, av, [x0])
            self.cmp("UnitDatabase.Convert(u,[(v,1)])", db.Convert(qt, u, [(v, 1)], float(x0)), [r0], case, au, av, [x0])
            self.cmp("UnitDatabase.Convert([(u,1)],v)", db.Convert(qt, [(u, 1)], v, float(x0)), [r0], case, au, av, [x0])
            self.cmp("UnitDatabase.Convert(((u,1),),((v,1),))", db.Convert(qt, ((u, 1),), ((v, 1),), float(x0)), [r0], case, au, av, [x0])
            # one number that is an instance of a subclass of float / int (what array[i], array.min() and tuple(row) hand out; a bool)
            q_ = ObtainQuantity(u, c)
            self.cmp("UnitDatabase.Convert(numpy.float64)", [float(db.Convert(qt, u, v, np.float64(x0)))], [r0], case, au, av, [x0])
            self.cmp("Quantity.Convert(numpy.float64)", [float(q_.Convert(np.float64(x0), v))], [r0], case, au, av, [x0])
            self.cmp("Quantity.ConvertScalarValue(numpy.float64)", [float(q_.ConvertScalarValue(np.float64(x0), v))], [r0], case, au, av, [x0])
            self.cmp("UnitDatabase.Convert(True)", [float(db.Convert(qt, u, v, True))], [db.Convert(qt, u, v, 1.0)], case, au, av, [1.0])
            self.cmp("Array[tuple of numpy.float64 rows].GetValues", [float(t) for row in Array(c, (tuple(np.array(xs, dtype=float)),), u).GetValues(v) for t in row], ref, case, au, av, xs, list)
            # numbers that are not Python floats inside a list / a tuple are numbers all the same
            import fractions

            self.cmp("UnitDatabase.Convert(list of numpy.longdouble)", [float(t) for t in db.Convert(qt, u, v, [np.longdouble(x) for x in xs])], ref, case, au, av, xs, list)
            self.cmp("UnitDatabase.Convert(tuple of fractions.Fraction)", [float(t) for t in db.Convert(qt, u, v, tuple(fractions.Fraction(float(x)) for x in xs))], ref, case, au, av, xs, list)
            self.cmp("Array[list of numpy.float64 and float].GetValues", Array(c, [np.float64(x) if k % 2 else float(x) for k, x in enumerate(xs)], u).GetValues(v), ref, case, au, av, xs, list)
            ints = [int(x) for x in xs if abs(x) < 1e15 and float(x).is_integer()]
            if ints:
                iref = [db.Convert(qt, u, v, float(i)) for i in ints]
                self.cmp("UnitDatabase.Convert(list of numpy.int64)", db.Convert(qt, u, v, [np.int64(i) for i in ints]), iref, case, au, av, ints, list)
                self.cmp("UnitDatabase.Convert(tuple of numpy.int32)", db.Convert(qt, u, v, tuple(np.int32(i) for i in ints if abs(i) < 2**31)), [t for t, i in zip(iref, ints) if abs(i) < 2**31], case, au, av, [i for i in ints if abs(i) < 2**31], tuple)
                self.cmp("Array[list of numpy.int64].GetValues", Array(c, [np.int64(i) for i in ints], u).GetValues(v), iref, case, au, av, ints, list)
                self.cmp("UnitDatabase.Convert(int)", db.Convert(qt, u, v, ints[0]), iref[:1], case, au, av, ints[:1])
                self.cmp("UnitDatabase.Convert(list of int)", db.Convert(qt, u, v, list(ints)), iref, case, au, av, ints, list)
                self.cmp("UnitDatabase.Convert(ndarray i8)", db.Convert(qt, u, v, np.array(ints, dtype=np.int64)), iref, case, au, av, ints, np.ndarray)
                self.cmp("Scalar(int).GetValue", Scalar(c, ints[0], u).GetValue(v), iref[:1], case, au, av, ints[:1])
            if au.off == 0.0 and av.off == 0.0:
                ratio = au.slope / av.slope
                for e in (2, 3):
                    for x in (x0, -abs(x0) if x0 else 2.0):
                        if x == 0 or abs(x) > 1e100 or abs(x) < 1e-100:
                            continue
                        self.ctx.ev()
                        self.seen_routes.add("UnitDatabase.Convert([(u,e)])")
                        got = db.Convert(qt, [(u, e)], [(v, e)], float(x))
                        want = x * ratio**e
                        if not abs(got - want) <= 1e-11 * abs(want):
                            self.bad("UnitDatabase.Convert([(u,e)])", "value", case, {"e": e, "x": x, "got": got, "want": want})
                        # the quantity type / category may come as a one-element list or tuple too
                        for label, first in (("[qt]", [qt]), ("(category,)", (c,))):
                            self.seen_routes.add("UnitDatabase.Convert(%s,[(u,e)])" % label)
                            try:
                                got2 = db.Convert(first, [(u, e)], [(v, e)], float(x))
                                if not abs(got2 - want) <= 1e-11 * abs(want):
                                    self.bad("UnitDatabase.Convert(%s,[(u,e)])" % label, "value", case, {"e": e, "x": x, "got": got2, "want": want})
                            except Exception as ex:
                                self.bad("UnitDatabase.Convert(%s,[(u,e)])" % label, "raised:%s" % type(ex).__name__, case, {"e": e, "x": x, "error": str(ex)[:160]})

        def array_routes():
            for n in lengths:
                vals = (list(xs) * (n // max(1, len(xs)) + 1))[:n]
                rr = (list(ref) * (n // max(1, len(ref)) + 1))[:n]
                self.cmp("Array[list].GetValues", Array(c, list(vals), u).GetValues(v), rr, case, au, av, vals, list)
                if n and u != v:
                    # ask, let the caller overwrite what it was given, ask again (list and ndarray containers)
                    for kind, mk in (("list", list), ("ndarray", lambda z: np.array(z, dtype=float))):
                        arr = Array(c, mk(vals), u)
                        first = arr.GetValues(v)
                        if first is arr.GetValues():
                            continue  # an identity conversion may hand out the stored container itself (like GetValues())
                        try:
                            if isinstance(first, list):
                                first[:] = [0.0] * len(first)
                            else:
                                first.fill(0.0)
                        except Exception:
                            pass
                        self.cmp("Array[%s].GetValues twice (first result overwritten by the caller)" % kind, arr.GetValues(v), rr, case, au, av, vals)
                self.cmp("Array[tuple].GetValues", Array(c, tuple(vals), u).GetValues(v), rr, case, au, av, vals, tuple)
                self.cmp("Array[ndarray].GetValues", Array(c, np.array(vals, dtype=float), u).GetValues(v), rr, case, au, av, vals, np.ndarray)
                if n:
                    lt = Array(c, [tuple(vals), tuple(vals)], u).GetValues(v)
                    self.cmp("Array[list of tuples].GetValues", lt, rr + rr, case, au, av, vals + vals, list)
                    tt = Array(c, (tuple(vals), tuple(vals)), u).GetValues(v)
                    self.cmp("Array[tuple of tuples].GetValues", tt, rr + rr, case, au, av, vals + vals, tuple)
                    # a single row is still a container of rows
                    l1 = Array(c, [tuple(vals)], u).GetValues(v)
                    self.cmp("Array[list of one tuple].GetValues", l1, rr, case, au, av, vals, list)
                    t1 = Array(c, (tuple(vals),), u).CreateCopy(unit=v).GetValues()
                    self.cmp("Array[tuple of one tuple].CreateCopy(unit)", t1, rr, case, au, av, vals, tuple)
                if n >= 2:
                    # ragged rows (unequal lengths, an empty row) convert row by row too
                    rag = [tuple(vals), tuple(vals[:1]), (), tuple(vals[1:])]
                    rref = rr + rr[:1] + rr[1:]
                    rx = vals + vals[:1] + vals[1:]
                    got = Array(c, list(rag), u).GetValues(v)
                    self.cmp("Array[ragged list of tuples].GetValues", got, rref, case, au, av, rx, list)
                    self.ctx.ev()
                    if [len(t) for t in got] != [len(t) for t in rag]:
                        self.bad("Array[ragged list of tuples].GetValues", "row-lengths", case, {"got": [len(t) for t in got], "want": [len(t) for t in rag]})
                    got = Array(c, tuple(rag), u).CreateCopy(unit=v).GetValues()
                    self.cmp("Array[ragged tuple of tuples].CreateCopy(unit)", got, rref, case, au, av, rx, tuple)
                a = Array(c, list(vals), u)
                ac = a.CreateCopy(unit=v)
                self.cmp("Array.CreateCopy(unit)", ac.values, rr, case, au, av, vals, list)
                self.meta("Array.CreateCopy(unit)", ac, c, qt, v, case)
                self.cmp("Array.GetValues(own unit)", a.GetValues(u), [float(t) for t in vals], case, None, None, vals)
                if n >= 2:
                    fa = FixedArray(n, c, list(vals), u)
                    i = n - 1
                    ias = fa.IndexAsScalar(i, ObtainQuantity(v, c))
                    self.cmp("FixedArray.IndexAsScalar", ias.value, [rr[i]], case, au, av, [vals[i]])
                    self.meta("FixedArray.IndexAsScalar", ias, c, qt, v, case)
                    ci = fa.ChangingIndex(0, Scalar(c, 5.0, v))
                    self.cmp("FixedArray.ChangingIndex(use_value_unit)", list(ci.values)[1:], rr[1:], case, au, av, vals[1:])
                    self.cmp("FixedArray.ChangingIndex(use_value_unit)[i]", ci.values[0], [5.0], case, None, None, [5.0])
                    self.meta("FixedArray.ChangingIndex(use_value_unit)", ci, c, qt, v, case)
                    ci2 = fa.ChangingIndex(0, Scalar(c, 5.0, v), use_value_unit=False)
                    self.cmp("FixedArray.ChangingIndex(keep unit)[i]", ci2.values[0], [db.Convert(qt, v, u, 5.0)], case, av, au, [5.0])
                    self.cmp("FixedArray.ChangingIndex(keep unit)", list(ci2.values)[1:], [float(t) for t in vals[1:]], case, None, None, vals[1:])
                    self.meta("FixedArray.ChangingIndex(keep unit)", ci2, c, qt, u, case)
                    # the amount as (value, unit) and as (None, unit): "the element as it is, re-expressed"
                    back5 = db.Convert(qt, v, u, 5.0)
                    t1 = fa.ChangingIndex(0, (5.0, v))
                    self.cmp("FixedArray.ChangingIndex((x,v))[i]", t1.values[0], [5.0], case, None, None, [5.0])
                    self.cmp("FixedArray.ChangingIndex((x,v))", list(t1.values)[1:], rr[1:], case, au, av, vals[1:])
                    self.meta("FixedArray.ChangingIndex((x,v))", t1, c, qt, v, case)
                    t2 = fa.ChangingIndex(0, (5.0, v), use_value_unit=False)
                    self.cmp("FixedArray.ChangingIndex((x,v), keep unit)[i]", t2.values[0], [back5], case, av, au, [5.0])
                    self.cmp("FixedArray.ChangingIndex((x,v), keep unit)", list(t2.values)[1:], [float(t) for t in vals[1:]], case, None, None, vals[1:])
                    self.meta("FixedArray.ChangingIndex((x,v), keep unit)", t2, c, qt, u, case)
                    t3 = fa.ChangingIndex(i, (None, v))
                    self.cmp("FixedArray.ChangingIndex((None,v))", list(t3.values), rr, case, au, av, vals)
                    self.meta("FixedArray.ChangingIndex((None,v))", t3, c, qt, v, case)
                    t4 = fa.ChangingIndex(i, (None, v), use_value_unit=False)
                    self.cmp("FixedArray.ChangingIndex((None,v), keep unit)[i]", t4.values[i], [db.Convert(qt, v, u, rr[i])], case, av, au, [rr[i]])
                    self.cmp("FixedArray.ChangingIndex((None,v), keep unit)", list(t4.values)[:i], [float(t) for t in vals[:i]], case, None, None, vals[:i])
                    self.meta("FixedArray.ChangingIndex((None,v), keep unit)", t4, c, qt, u, case)
                    # positions counted from the end, as everywhere in Python: the last element, re-expressed like the first
                    n_ = len(vals)
                    t6 = fa.ChangingIndex(-1, Scalar(c, 5.0, v))
                    self.cmp("FixedArray.ChangingIndex(-1, scalar)", list(t6.values), list(rr[:-1]) + [5.0], case, au, av, list(vals[:-1]) + [vals[-1]])
                    t7 = fa.ChangingIndex(-n_, (5.0, v), use_value_unit=False)
                    self.cmp("FixedArray.ChangingIndex(-n, (x,v), keep unit)", list(t7.values), [back5] + [float(t) for t in vals[1:]], case, av, au, [5.0] + list(vals[1:]))
                    t8 = fa.ChangingIndex(-1, 7.0)
                    self.cmp("FixedArray.ChangingIndex(-1, x)", list(t8.values), [float(t) for t in vals[:-1]] + [7.0], case, None, None, list(vals[:-1]) + [7.0])
                    self.cmp("FixedArray.IndexAsScalar(-1, quantity)", fa.IndexAsScalar(-1, ObtainQuantity(v, c)).value, [rr[-1]], case, au, av, [vals[-1]])
                    # an array backed by integers takes a fractional amount as it is (nothing is squeezed into the container's dtype)
                    for dt_ in (np.int64, np.int32):
                        fi = FixedArray(len(vals), c, np.arange(1, len(vals) + 1, dtype=dt_), u)
                        ti = fi.ChangingIndex(0, Scalar(c, 2.5, v), use_value_unit=False)
                        self.cmp("FixedArray[%s].ChangingIndex(scalar, keep unit)[i]" % dt_.__name__, ti.values[0], [db.Convert(qt, v, u, 2.5)], case, av, au, [2.5])
                        tj = fi.ChangingIndex(1, 0.75)
                        self.cmp("FixedArray[%s].ChangingIndex(x)[i]" % dt_.__name__, [float(t) for t in tj.values][:2], [1.0, 0.75], case, None, None, [1.0, 0.75])
                        self.cmp("FixedArray[%s].ChangingIndex(scalar, keep unit) -> IndexAsScalar" % dt_.__name__, ti.IndexAsScalar(0).value, [db.Convert(qt, v, u, 2.5)], case, av, au, [2.5])
                    t5 = fa.ChangingIndex(0, 5.0)  # a plain amount is an amount in the array's own unit
                    self.cmp("FixedArray.ChangingIndex(x)", list(t5.values), [5.0] + [float(t) for t in vals[1:]], case, None, None, [5.0] + vals[1:])
                    self.meta("FixedArray.ChangingIndex(x)", t5, c, qt, u, case)

        def usm_routes():
            m = UnitSystemManager()
            m.AddUnitSystem("x", "X", {c: v})
            r = m.ConvertToCurrent(c, u, float(x0))
            self.cmp("UnitSystemManager.ConvertToCurrent", r[0], [r0], case, au, av, [x0])
            self.ctx.ev()
            if r[1] != v:
                self.bad("UnitSystemManager.ConvertToCurrent", "unit", case, {"got": r[1]})
            sc = m.ConvertScalarToCurrent(Scalar(c, x0, u))
            self.cmp("UnitSystemManager.ConvertScalarToCurrent", sc.value, [r0], case, au, av, [x0])
            self.meta("UnitSystemManager.ConvertScalarToCurrent", sc, c, qt, v, case)
            # the current system edited in place (no other system selected in between): the next conversion goes to the new unit
            w = next((t for t in db.GetUnits(qt) if t not in (u, v) and t in aff and aff[t].exact and aff[t].slope), None)
            if w is not None:
                m.GetCurrent().SetDefaultUnit(c, w)
                r3 = m.ConvertToCurrent(c, u, float(x0))
                self.cmp("UnitSystemManager.ConvertToCurrent after SetDefaultUnit on the current system", r3[0], [db.Convert(qt, u, w, float(x0))], case, au, aff[w], [x0])
                self.ctx.ev()
                if r3[1] != w:
                    self.bad("UnitSystemManager.ConvertToCurrent after SetDefaultUnit on the current system", "unit", case, {"got": r3[1], "want": w})
                sc3 = m.ConvertScalarToCurrent(Scalar(c, x0, u))
                self.cmp("UnitSystemManager.ConvertScalarToCurrent after SetDefaultUnit on the current system", sc3.value, [db.Convert(qt, u, w, float(x0))], case, au, aff[w], [x0])
                m.GetCurrent().RemoveCategory(c)
                r4 = m.ConvertToCurrent(c, u, float(x0))
                self.cmp("UnitSystemManager.ConvertToCurrent after RemoveCategory on the current system", r4[0], [float(x0)], case, None, None, [x0])
            m2 = UnitSystemManager()
            m2.AddUnitSystem("y", "Y", {})
            sc2 = m2.ConvertScalarToCurrent(Scalar(c, x0, u))
            self.cmp("UnitSystemManager.ConvertScalarToCurrent(no mapping)", sc2.value, [float(x0)], case, None, None, [x0])
            self.meta("UnitSystemManager.ConvertScalarToCurrent(no mapping)", sc2, c, qt, u, case)

        def default_routes():
            ci = db.GetCategoryInfo(c)
            ad = aff[ci.default_unit]
            want = db.Convert(qt, ci.default_unit, v, float(ci.default_value))
            d = Scalar(c, unit=v)
            self.cmp("Scalar(category, unit=v) default", d.value, [want], case, ad, av, [ci.default_value])
            self.meta("Scalar(category, unit=v) default", d, c, qt, v, case)
            f = FractionScalar(c, unit=v)
            self.cmp("FractionScalar(category, unit=v) default", float(f.GetValue()), [want], case, ad, av, [ci.default_value])

        def fraction_routes():
            fs = FractionScalar(c, float(x0), u)
            self.cmp("FractionScalar.GetValue(unit)", float(fs.GetValue(v)), [r0], case, au, av, [x0])
            fc = fs.CreateCopy(unit=v)
            self.cmp("FractionScalar.CreateCopy(unit)", float(fc.GetValue()), [r0], case, au, av, [x0])
            self.meta("FractionScalar.CreateCopy(unit)", fc, c, qt, v, case)

        def legacy_routes():
            # the unit asked for (or given) in a legacy spelling: same numbers, and the object keeps *its* category
            for lv in self.legacy.get(v, ())[:2]:
                s = Scalar(c, x0, u)
                self.cmp("Scalar.GetValue(legacy v)", s.GetValue(lv), [r0], case, au, av, [x0])
                cp = s.CreateCopy(unit=lv)
                self.cmp("Scalar.CreateCopy(unit=legacy v)", cp.value, [r0], case, au, av, [x0])
                self.meta("Scalar.CreateCopy(unit=legacy v)", cp, c, qt, v, case)
                ac = Array(c, list(xs), u).CreateCopy(unit=lv)
                self.cmp("Array.CreateCopy(unit=legacy v)", ac.values, ref, case, au, av, xs, list)
                self.meta("Array.CreateCopy(unit=legacy v)", ac, c, qt, v, case)
                o = Owner()
                o.a = s
                ChangeScalars(o, a=(None, lv))
                self.cmp("ChangeScalars(legacy v)", o.a.value, [r0], case, au, av, [x0])
                self.meta("ChangeScalars(legacy v)", o.a, c, qt, v, case)
                q = ObtainQuantity(lv, c)
                self.meta("ObtainQuantity(legacy v, category)", q, c, qt, v, case)
                fa = FixedArray(len(xs), c, list(xs), u)
                ias = fa.IndexAsScalar(0, q)
                self.cmp("FixedArray.IndexAsScalar(legacy v)", ias.value, [r0], case, au, av, [x0])
                self.meta("FixedArray.IndexAsScalar(legacy v)", ias, c, qt, v, case)
                t = fa.ChangingIndex(0, (None, lv))
                self.cmp("FixedArray.ChangingIndex((None,legacy v))", list(t.values), ref, case, au, av, xs)
                self.meta("FixedArray.ChangingIndex((None,legacy v))", t, c, qt, v, case)
                fc = FractionScalar(c, float(x0), u).CreateCopy(unit=lv)
                self.cmp("FractionScalar.CreateCopy(unit=legacy v)", float(fc.GetValue()), [r0], case, au, av, [x0])
                self.meta("FractionScalar.CreateCopy(unit=legacy v)", fc, c, qt, v, case)
                self.cmp("UnitDatabase.Convert(category name, u, legacy v)", db.Convert(c, u, lv, float(x0)), [r0], case, au, av, [x0])
            for lu in self.legacy.get(u, ())[:2]:
                s = Scalar(c, x0, lu)
                self.meta("Scalar(category, x, legacy u)", s, c, qt, u, case)
                self.cmp("Scalar(legacy u).GetValue", s.GetValue(v), [r0], case, au, av, [x0])
                a = Array(c, list(xs), lu)
                self.meta("Array(category, xs, legacy u)", a, c, qt, u, case)
                self.cmp("Array(legacy u).GetValues", a.GetValues(v), ref, case, au, av, xs, list)

        G("Scalar routes", case, scalar_routes)
        if self.legacy:
            G("legacy spelling routes", case, legacy_routes)
        G("UnitDatabase.Convert routes", case, db_routes)
        G("Array/FixedArray routes", case, array_routes)
        G("UnitSystemManager routes", case, usm_routes)
        G("category default routes", case, default_routes)
        G("FractionScalar routes", case, fraction_routes)


def _large_arrays(ctx, R, db, aff):
    """the numpy route on arrays longer than any block a conversion might work in (16 384 / 65 536 items and a tail): every
    element, the last ones included, is the float conversion of that element"""
    import numpy as np
    from barril.units import Array

    for qt, u, v in (("length", "m", "cm"), ("temperature", "degC", "K"), ("pressure", "bar", "psi"), ("volume flow rate", "m3/d", "bbl/d")):
        if u not in aff or v not in aff:
            continue
        for n in (16385, 40000, 70001):
            vals = np.linspace(-40.0, 60.0, n)
            case = {"large array": True, "qt": qt, "u": u, "v": v, "items": n}
            idx = [0, 1, 16383, 16384, n // 2, n - 3, n - 2, n - 1]

            def go():
                ref = [db.Convert(qt, u, v, float(vals[i])) for i in idx]
                got = db.Convert(qt, u, v, vals.copy())
                R.cmp("UnitDatabase.Convert(ndarray of %d items)" % n, [got[i] for i in idx], ref, case, aff[u], aff[v], [float(vals[i]) for i in idx])
                ga = Array(vals.copy(), u).GetValues(v)
                R.cmp("Array[ndarray of %d items].GetValues" % n, [ga[i] for i in idx], ref, case, aff[u], aff[v], [float(vals[i]) for i in idx])
                gc = Array(vals.copy(), u).CreateCopy(unit=v).GetValues()
                R.cmp("Array[ndarray of %d items].CreateCopy(unit)" % n, [gc[i] for i in idx], ref, case, aff[u], aff[v], [float(vals[i]) for i in idx])
                ctx.ev()
                if len(got) != n or len(ga) != n:
                    R.bad("large array", "length", case, {"got": [len(got), len(ga)]})

            R.guard("large array routes", case, go)


def _explicit_database(ctx, R):
    """ConvertToCurrent / ConvertScalarToCurrent take the database to convert with: the answer is that database's
    conversion, also when it is not the one the scalar was created under (here: another table for the same symbols)."""
    from barril.units import Scalar, UnitDatabase
    from barril.units.unit_system_manager import UnitSystemManager

    db2 = UnitDatabase()
    db2.AddUnitBase("length", "metre", "m")
    db2.AddUnit("length", "survey centimetre", "cm", "%f*50.0", "%f/50.0")
    db2.AddUnit("length", "survey kilometre", "km", "%f/999.0", "%f*999.0")
    db2.AddCategory("length", "length")
    db2.AddCategory("depth", "length")
    m = UnitSystemManager()
    m.AddUnitSystem("x", "X", {"length": "cm", "depth": "km"})
    for c, u, v, x in (("length", "m", "cm", 2.0), ("length", "km", "cm", 0.5), ("depth", "m", "km", 1998.0), ("depth", "cm", "km", -3.0)):
        case = {"explicit database": True, "category": c, "u": u, "v": v, "x": x}
        want = db2.Convert("length", u, v, x)

        def go():
            r = m.ConvertToCurrent(c, u, x, db2)
            R.cmp("UnitSystemManager.ConvertToCurrent(unit_database=)", r[0], [want], case, None, None, [x])
            s = Scalar(c, x, u)  # created under the shipped table
            sc = m.ConvertScalarToCurrent(s, db2)
            R.cmp("UnitSystemManager.ConvertScalarToCurrent(unit_database=)", sc.value, [want], case, None, None, [x])
            ctx.ev()
            if (sc.GetUnit(), sc.GetCategory()) != (v, c):
                R.bad("UnitSystemManager.ConvertScalarToCurrent(unit_database=)", "category/unit", case, {"got": [sc.GetUnit(), sc.GetCategory()]})

        R.guard("explicit database routes", case, go)

    # the database object itself, asked directly while another one is the singleton of the moment: every kind of value goes
    # through *its* table
    import numpy as np

    for u, v, xs in (("m", "cm", [2.0, -1.5, 0.0]), ("km", "cm", [0.5, 3.0, 7.0]), ("cm", "km", [1998.0, 1.0, -4.0])):
        case = {"explicit database": True, "asked directly": True, "u": u, "v": v}
        want = [db2.Convert("length", u, v, x) for x in xs]

        def go2():
            R.cmp("db2.Convert(list) while not the singleton", db2.Convert("length", u, v, list(xs)), want, case, None, None, xs)
            R.cmp("db2.Convert(tuple) while not the singleton", db2.Convert("length", u, v, tuple(xs)), want, case, None, None, xs)
            R.cmp("db2.Convert(ndarray) while not the singleton", db2.Convert("length", u, v, np.array(xs)), want, case, None, None, xs)
            R.cmp("db2.Convert(int ndarray) while not the singleton", db2.Convert("length", u, v, np.array([2, 3, 5])), [db2.Convert("length", u, v, float(t)) for t in (2, 3, 5)], case, None, None, [2.0, 3.0, 5.0])
            R.cmp("db2.Convert(category, ndarray) while not the singleton", db2.Convert("depth", u, v, np.array(xs)), want, case, None, None, xs)
            r = m.ConvertToCurrent("length", u, np.array(xs), db2) if v == "cm" else None
            if r is not None:
                R.cmp("UnitSystemManager.ConvertToCurrent(ndarray, unit_database=)", r[0], want, case, None, None, xs)

        R.guard("explicit database asked directly", case, go2)


def _refilled_database(ctx, R):
    """One database object emptied (`Clear`) and filled again with a table that gives the same symbols other sizes: every
    route answers by the table the database holds now"""
    import numpy as np
    from barril.units import Array, ChangeScalars, ObtainQuantity, Scalar, UnitDatabase

    db = UnitDatabase()
    with table.pushed(db):
        for generation in (1, 2, 3):
            if generation != 1:
                db.Clear()
            k = {1: 1000.0, 2: 999.0, 3: 1000.0}[generation]
            db.AddUnitBase("length", "metre", "m")
            db.AddUnit("length", "centimetre", "cm", "%f*100.0" if generation != 2 else "%f*50.0", "%f/100.0" if generation != 2 else "%f/50.0")
            db.AddUnit("length", "kilometre", "km", "%%f/%r" % k, "%%f*%r" % k)
            db.AddCategory("length", "length")
            for u, v, x in (("km", "cm", 1.0), ("cm", "km", 250.0), ("m", "cm", 2.0), ("km", "m", -3.0)):
                case = {"refilled database": True, "generation": generation, "u": u, "v": v, "x": x}
                want = db.Convert("length", u, v, x)

                def go():
                    R.cmp("Scalar.GetValue after a refill", Scalar(x, u).GetValue(v), [want], case, None, None, [x])
                    R.cmp("Scalar.CreateCopy(unit) after a refill", Scalar("length", x, u).CreateCopy(unit=v).value, [want], case, None, None, [x])
                    R.cmp("Quantity.ConvertScalarValue after a refill", ObtainQuantity(u, "length").ConvertScalarValue(x, v), [want], case, None, None, [x])
                    R.cmp("Array.GetValues after a refill", Array([x, x], u).GetValues(v), [want, want], case, None, None, [x, x])
                    R.cmp("Array[nd].GetValues after a refill", Array(np.array([x, x]), u).GetValues(v), [want, want], case, None, None, [x, x])

                    class _O:
                        pass

                    o = _O()
                    o.a = Scalar(x, u)
                    ChangeScalars(o, a=(None, v))
                    R.cmp("ChangeScalars after a refill", o.a.value, [want], case, None, None, [x])

                R.guard("refilled database routes", case, go)


def _derived_own_unit(ctx, R, db, aff, rng, n):
    """asking a derived object for its value in its own unit returns the stored value unchanged."""
    import numpy as np
    from barril.units import Array, Scalar

    us = [u for u, a in aff.items() if a.off == 0.0 and a.qt in ("length", "time", "mass", "pressure", "volume", "force")]
    for t in range(n):
        k = rng.randint(2, 4)
        leaves = [(rng.choice([1.0, 2.0, 0.5, 3.25, 10.0]), rng.choice(us)) for _ in range(k)]
        ops = [rng.choice("*/") for _ in range(k - 1)]
        case = {"derived": leaves, "ops": ops}

        def go():
            s = Scalar(*leaves[0])
            a = Array([leaves[0][0], 2.0], leaves[0][1])
            an = Array(np.array([leaves[0][0], 2.0]), leaves[0][1])
            for (val, u), op in zip(leaves[1:], ops):
                o = Scalar(val, u)
                oa = Array([val, 3.0], u)
                on = Array(np.array([val, 3.0]), u)
                s = s * o if op == "*" else s / o
                a = a * oa if op == "*" else a / oa
                an = an * on if op == "*" else an / on
            ctx.nt(("derived-own", s.GetUnit()))
            R.cmp("derived Scalar.GetValue(own unit)", s.GetValue(s.GetUnit()), [s.value], case, None, None, [s.value])
            R.cmp("derived Array.GetValues(own unit)", a.GetValues(a.GetUnit()), list(a.values), case, None, None, list(a.values), list)
            R.cmp("derived Array[nd].GetValues(own unit)", an.GetValues(an.GetUnit()), list(an.values), case, None, None, list(an.values))
            cp = s.CreateCopy(unit=s.GetUnit()) if not s.GetQuantity().IsDerived() else s.CreateCopy()
            R.cmp("derived Scalar.CreateCopy()", cp.value, [s.value], case, None, None, [s.value])
            ctx.ev()
            if cp.GetQuantity() != s.GetQuantity():
                R.bad("derived Scalar.CreateCopy()", "quantity", case, {"got": repr(cp), "src": repr(s)})

        R.guard("derived own unit", case, go)


def run(ctx):
    from barril.units import Array, Scalar, UnitDatabase
    from barril.units.unit_system_manager import UnitSystemManager

    probe.install()
    probe.reach([UnitDatabase.Convert, UnitDatabase._ConvertWithExp, Array.GetAbstractValue, UnitSystemManager.ConvertScalarToCurrent])
    ctx.rule = (
        "for every category of the POSC and FillSimple databases: (default unit <-> every unit of its quantity type) "
        "+ random pairs (thorough: all ordered pairs) x values x every public conversion route x container kinds; "
        "a case is (category, u, v); each route result compared element-wise with UnitDatabase.Convert on floats "
        "(running float error scale), container type, category/quantity type/unit of re-expressed objects, own-unit identity"
    )
    ctx.assumptions = ["reference = UnitDatabase.Convert(qt,u,v,float(x)) observed in the same run (C01 vouches for it)"]
    r = ctx.rng("pairs")
    hv = values.hostile()
    for kind in ("posc", "simple"):
        db = table.build(kind)
        if kind == "posc":
            # application categories whose default is a non-zero amount in a unit that is not the base unit of the type
            # (every shipped default is 0 or sits in the base unit - "the amount of that default" is then hardly asked)
            db.AddCategory("vp casing length", "length", default_unit="ft", default_value=100.0)
            db.AddCategory("vp room temperature", "temperature", default_unit="degC", default_value=25.0)
            db.AddCategory("vp line pressure", "pressure", default_unit="psi", default_value=14.5, min_value=0.0)
            db.AddCategory("vp rate", "volume flow rate", default_unit="Mcf/d", default_value=999.99, valid_units=["Mcf/d", "m3/s", "bbl/d", "Mm3/d"])
        with table.pushed(db):
            aff = conv.describe(db)
            R = Routes(ctx, db, aff)
            work = []
            for c in list(db.IterCategories()):
                qt = db.GetCategoryQuantityType(c)
                us = [u for u in db.GetUnits(qt) if u in aff and aff[u].exact and aff[u].slope]
                if not us:
                    continue
                du = db.GetDefaultUnit(c)
                pairs = set()
                if ctx.tier == "quick":
                    for u in us:
                        if du in aff:
                            pairs.add((du, u))
                            pairs.add((u, du))
                    for _ in range(6):
                        pairs.add((r.choice(us), r.choice(us)))
                else:
                    cap = 40  # per category: all pairs for types up to 40 units, else 40x40 random subset + default pairs
                    sub = us if len(us) <= cap else r.sample(us, cap)
                    for u in sub:
                        for v in sub:
                            pairs.add((u, v))
                    for u in us:
                        if du in aff:
                            pairs.add((du, u))
                            pairs.add((u, du))
                for u, v in sorted(pairs):
                    if u != v:
                        work.append((c, qt, u, v))
            for idx, (c, qt, u, v) in enumerate(work):
                if idx % ctx.nshards != ctx.shard:
                    continue
                ctx.nt((kind, c, u, v))
                nx = 3 if ctx.tier == "quick" else 4
                xs = [r.choice(hv) if r.random() < 0.4 else (values.short_decimal(r) if r.random() < 0.5 else float(r.randint(-50, 50))) for _ in range(nx)]
                lengths = [len(xs)] if ctx.tier == "quick" else [0, 1, 2, 17]
                if ctx.tier == "quick" and idx % 16 == 0:
                    lengths = [0, 1, len(xs)]
                R.pair(c, qt, u, v, xs, lengths)
                if idx < 2 and ctx.shard == 0:
                    ctx.sample({"db": kind, "category": c, "u": u, "v": v, "xs": xs})
            if kind == "posc" and ctx.shard == 0:
                _explicit_database(ctx, R)
                _large_arrays(ctx, R, db, aff)
                _refilled_database(ctx, R)
            if kind == "posc":
                _derived_own_unit(ctx, R, db, aff, ctx.rng("derived"), 300 if ctx.tier == "quick" else 3000)
            ctx.notes.setdefault("routes_observed", {}).update({k: 1 for k in R.seen_routes})
    ctx.notes["n_routes"] = {"n": len(ctx.notes.get("routes_observed", {}))}
    for w in ("Scalar.GetAbstractValue", "Array.GetAbstractValue", "UnitDatabase.Convert", "UnitSystemManager.ConvertScalarToCurrent", "module.ChangeScalars", "FixedArray.ChangingIndex"):
        ctx.inconclusive_if(probe.COUNTS[w] + probe.COUNTS.get(w.replace("GetAbstractValue", "GetValue"), 0) == 0, "wrapper %s saw no event" % w)


def replay(ctx, d):
    probe.install()
    kind = "posc"
    db = table.build(kind)
    with table.pushed(db):
        aff = conv.describe(db)
        R = Routes(ctx, db, aff)
        if "category" in d:
            R.pair(d["category"], d["qt"], d["u"], d["v"], d["xs"], [0, 1, 2, len(d["xs"]), 17])
        else:
            print("derived case:", d)
